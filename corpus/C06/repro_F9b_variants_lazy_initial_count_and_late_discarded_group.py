"""F8/F9 variants: (b2) lazy execution, initialCount 1: the source was started by the completed, not yet integrated
execution group; (F8b) a discarded, still running execution group of a failed fragment completes later."""
import asyncio, sys
if len(sys.argv) > 1: sys.path.insert(0, sys.argv[1])
from graphql import build_schema, parse
from graphql.execution import ExecutionHooks, experimental_execute_incrementally
from graphql.pyutils import AbortController
schema = build_schema("""
directive @defer(if: Boolean! = true, label: String) on FRAGMENT_SPREAD | INLINE_FRAGMENT
directive @stream(if: Boolean! = true, label: String, initialCount: Int! = 0) on FIELD
type Item { id: Int }
type Query { a: String  b: String  nn: String! slow: String items: [Item] }
""")
def mk(log, never):
    class Source:
        def __init__(s): s.i = 0
        def __aiter__(self): return self
        async def __anext__(self):
            log.append("source started"); self.i += 1
            if self.i > 1: await never.wait()
            await asyncio.sleep(0); return {"id": self.i}
        async def aclose(self): log.append("source closed")
    return Source
async def finish(log, me):
    for _ in range(60): await asyncio.sleep(0)
    left = [x.get_coro().__qualname__ for x in asyncio.all_tasks() if x is not me and not x.done()]
    started = "source started" in log
    ok = not left and log.count("HOOK") == 1 and (not started or log.count("source closed") == 1)
    print("   log:", [x for i, x in enumerate(log) if x != "source started" or log.index(x) == i], "pending:", left, "->", "OK" if ok else "VIOLATION")
    for x in asyncio.all_tasks():
        if x is not me: x.cancel()
    return ok
async def b2():
    print("(b2) lazy, initialCount 1, result completed but not integrated when the consumer closes")
    log = []; never = asyncio.Event(); loop = asyncio.get_running_loop(); fa, fb = loop.create_future(), loop.create_future()
    me = asyncio.current_task()
    res = experimental_execute_incrementally(schema, parse('{ ... @defer(label: "A") { a } ... @defer(label: "B") { b items @stream(initialCount: 1) { id } } }'),
        {"a": lambda _i: fa, "b": lambda _i: fb, "items": lambda _i: mk(log, never)()}, hooks=ExecutionHooks(async_work_finished=lambda _i: log.append("HOOK")))
    it = res.subsequent_results; t = asyncio.ensure_future(anext(it)); await asyncio.sleep(0.01); fa.set_result("a"); await t
    fb.set_result("b")
    for _ in range(20): await asyncio.sleep(0)
    await it.aclose(); return await finish(log, me)
async def c():
    print("(c) early, abort during the initial result after a deferred group completed with an eager stream")
    log = []; never = asyncio.Event(); me = asyncio.current_task(); ctrl = AbortController()
    async def slow(_i): await never.wait()
    res = experimental_execute_incrementally(schema, parse('{ slow ... @defer(label: "B") { b items @stream(initialCount: 0) { id } } }'),
        {"slow": slow, "b": "b", "items": lambda _i: mk(log, never)()}, enable_early_execution=True, abort_signal=ctrl.signal,
        hooks=ExecutionHooks(async_work_finished=lambda _i: log.append("HOOK")))
    t = asyncio.ensure_future(res)
    for _ in range(30): await asyncio.sleep(0)
    ctrl.abort(RuntimeError("stop"))
    try: await asyncio.wait_for(t, 1)
    except Exception as e: print("   released with", type(e).__name__)
    return await finish(log, me)
async def f8b():
    print("(F8b) a discarded, still running execution group of a failed fragment completes later with an eager stream")
    log = []; never = asyncio.Event(); loop = asyncio.get_running_loop(); fb = loop.create_future(); me = asyncio.current_task()
    async def nn(_i): await asyncio.sleep(0.01); raise RuntimeError("boom")
    res = experimental_execute_incrementally(schema, parse('{ ... @defer(label: "X") { nn a } ... @defer(label: "Y") { nn b items @stream(initialCount: 0) { id } } ... @defer(label: "Z") { slow } }'),
        {"nn": nn, "a": "a", "b": lambda _i: fb, "slow": lambda _i: loop.create_future(), "items": lambda _i: mk(log, never)()}, enable_early_execution=True,
        hooks=ExecutionHooks(async_work_finished=lambda _i: log.append("HOOK")))
    if hasattr(res, "__await__"): res = await res
    it = res.subsequent_results
    p = await anext(it); print("  ", p.formatted.get("completed"))
    fb.set_result("b")            # the discarded group of Y completes now
    for _ in range(20): await asyncio.sleep(0)
    await it.aclose(); return await finish(log, me)
r = [asyncio.run(f()) for f in (b2, f8b)]
raise SystemExit(0 if all(r) else 1)
