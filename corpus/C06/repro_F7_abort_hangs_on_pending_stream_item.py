"""C06 finding F7 - key: abort-with-pending-early-stream-item:consumer-never-released

Early execution + abort signal: the consumer waits for the next payload while the head item of a stream is
still being completed (its resolver is in flight) and a later item has already completed.  The abort signal fires.  IncrementalPublisher._subscribe
raises the reason and, in its `finally`, awaits WorkQueue.cancel(), which cancels the pump task and gathers it.
The pump is suspended in `entry = await entry` (StreamItemQueue.batches) on the item task; Task.cancel()
delegates the cancellation to that item task, which does NOT end cancelled: Executor.with_abort_signal
swallows the CancelledError (`with suppress(BaseException): await task`) and raises the abort reason, which
becomes a field error, so the item task completes normally.  The pump therefore never sees a CancelledError,
pushes the batch to the stopped work queue and waits for `handled` for ever -> WorkQueue.cancel() never
returns -> the consumer is never released with the abort reason, the hook never fires.

Run: PYTHONPATH=/repo/src /venv/bin/python repro_F7_abort_hangs_on_pending_stream_item.py
expected: consumer released promptly with the abort reason, hook once      observed: hangs for ever
"""
import asyncio

from graphql import build_schema, parse
from graphql.execution import ExecutionHooks, experimental_execute_incrementally
from graphql.pyutils import AbortController

schema = build_schema("type Item { id: ID name: String }  type Query { items: [Item] }")


async def main():
    log = []
    loop = asyncio.get_running_loop()
    never, first, second = loop.create_future(), loop.create_future(), loop.create_future()

    async def name1(_info):
        return await first             # the resolver of the head item stays in flight

    async def name2(_info):
        return await second

    async def source():
        yield {"id": 0, "name": "n0"}
        yield {"id": 1, "name": name1}
        yield {"id": 2, "name": name2}
        await never

    ctrl = AbortController()
    r = experimental_execute_incrementally(
        schema, parse("{ items @stream(initialCount: 0) { id name } }"), {"items": lambda _i: source()},
        enable_early_execution=True, abort_signal=ctrl.signal,
        hooks=ExecutionHooks(async_work_finished=lambda _i: log.append("hook")))
    if asyncio.iscoroutine(r) or asyncio.isfuture(r):
        r = await r
    await anext(r.subsequent_results)                             # item 0
    nxt = asyncio.ensure_future(anext(r.subsequent_results))     # the consumer waits for the next payload
    for _ in range(12):
        await asyncio.sleep(0)
    second.set_result("n2")            # the second item completes; the head item (1) is still pending
    for _ in range(12):
        await asyncio.sleep(0)
    ctrl.abort(RuntimeError("stop"))
    try:
        await asyncio.wait_for(asyncio.shield(nxt), 2.0)
        released = "a result"
    except asyncio.TimeoutError:
        released = None
    except RuntimeError as e:
        released = f"the reason ({e})"
    ok = released is not None and log == ["hook"]
    print("consumer released with:", released, "| hook calls:", len(log), "->", "OK" if ok else "VIOLATION (hang)")
    for t in asyncio.all_tasks():
        if t is not asyncio.current_task():
            t.cancel()
    return ok


if __name__ == "__main__":
    raise SystemExit(0 if asyncio.run(main()) else 1)
