"""C06 finding F1 - key: incremental-stream-aclose-before-first-request:no-cleanup

Closing `subsequent_results` BEFORE the first `anext` performs no cleanup at all:
IncrementalPublisher._subscribe is an async generator, `aclose()` on a generator that was never started
does not run its body, so the `finally:` (work_queue.cancel / cancel_incremental_work / hook) never runs.

Run: PYTHONPATH=/repo/src /venv/bin/python repro_F1_aclose_before_first_anext.py
expected (property C06): hook fired once, started source finalised, no task pending
observed: hook 0 times; lazy: source never finalised; early execution: deferred task pending for ever
"""
import asyncio

from graphql import build_schema, parse
from graphql.execution import ExecutionHooks, experimental_execute_incrementally

schema = build_schema("type Item { id: ID name: String }  type Query { hero: Item items: [Item] }")


async def main(early):
    log = []
    never = asyncio.get_running_loop().create_future()

    async def source():
        log.append("source started")
        try:
            for i in range(3):
                yield {"id": i}
                await asyncio.sleep(0)
            await never
        finally:
            log.append("source finalised")

    r = experimental_execute_incrementally(
        schema, parse("{ hero { id ... @defer { name } } items @stream(initialCount: 1) { id } }"),
        {"hero": {"id": 1, "name": lambda _i: never}, "items": lambda _i: source()},
        enable_early_execution=early,
        hooks=ExecutionHooks(async_work_finished=lambda _i: log.append("hook")))
    if asyncio.iscoroutine(r) or asyncio.isfuture(r):
        r = await r
    await r.subsequent_results.aclose()      # the consumer is not interested in the rest
    for _ in range(50):
        await asyncio.sleep(0)
    left = [t for t in asyncio.all_tasks() if t is not asyncio.current_task()]
    ok = log.count("hook") == 1 and "source finalised" in log and not left
    print(f"early_execution={early}: log={log} pending_tasks={len(left)}  ->", "OK" if ok else "VIOLATION")
    for t in left:
        t.cancel()
    await asyncio.gather(*left, return_exceptions=True)
    return ok


if __name__ == "__main__":
    res = [asyncio.run(main(e)) for e in (False, True)]
    raise SystemExit(0 if all(res) else 1)
