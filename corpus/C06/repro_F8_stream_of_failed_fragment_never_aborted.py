"""F8: a stream produced by an execution group of a deferred fragment that FAILS (through another, shared
execution group) is never aborted: with early execution its producer has already started the source, which
is then never closed; the work-finished hook fires while that producer is still running.
Usage: repro_F8...py [source root]"""
import asyncio, sys
if len(sys.argv) > 1: sys.path.insert(0, sys.argv[1])
from graphql import build_schema, parse
from graphql.execution import ExecutionHooks, experimental_execute_incrementally

schema = build_schema("""
directive @defer(if: Boolean! = true, label: String) on FRAGMENT_SPREAD | INLINE_FRAGMENT
directive @stream(if: Boolean! = true, label: String, initialCount: Int! = 0) on FIELD
type Item { id: Int }
type Query { nn: String!  b: String  items: [Item] }
""")
QUERY = '{ ... @defer(label: "X") { nn b } ... @defer(label: "Y") { nn items @stream(initialCount: 0) { id } } }'

async def main():
    log = []
    never = asyncio.Event()
    class Source:
        def __aiter__(self): return self
        async def __anext__(self):
            log.append("source started"); await never.wait()
        async def aclose(self): log.append("source closed")
    async def nn(_info):
        await asyncio.sleep(0.01); raise RuntimeError("boom")
    me = asyncio.current_task()
    res = experimental_execute_incrementally(schema, parse(QUERY), {"nn": nn, "b": "b", "items": lambda _i: Source()},
        enable_early_execution=True, hooks=ExecutionHooks(async_work_finished=lambda _i: log.append("HOOK")))
    if hasattr(res, "__await__"): res = await res
    async for p in res.subsequent_results:
        print(p.formatted)
    for _ in range(50): await asyncio.sleep(0)
    left = [t.get_coro().__qualname__ for t in asyncio.all_tasks() if t is not me and not t.done()]
    print("log:", log, "pending tasks:", left)
    ok = log == ["source started", "source closed", "HOOK"] and not left
    print("OK" if ok else "VIOLATION: started stream source of a failed fragment not closed / tasks left / hook early")
    for t in asyncio.all_tasks():
        if t is not me: t.cancel()
    return ok
raise SystemExit(0 if asyncio.run(main()) else 1)
