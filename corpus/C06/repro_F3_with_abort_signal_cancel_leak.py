"""C06 finding F3 - key: abort-signal-wrapper-cancelled:source-anext-orphaned

Executor.with_abort_signal wraps the awaitable in a task and waits for {task, abort}.  When the coroutine
that awaits with_abort_signal is itself cancelled (CancelledError out of `await wait(...)`), the wrapped
task is NOT cancelled.  With an abort signal merely passed (never triggered), closing the payload stream
while the stream producer waits for the next source item therefore leaves the source's __anext__ task
pending for ever, and an async generator source is never finalised (its aclose() raises "already running",
which is suppressed).

Run: PYTHONPATH=/repo/src /venv/bin/python repro_F3_with_abort_signal_cancel_leak.py
expected: source finalised, hook once, no pending task (as without abort_signal)
observed with abort_signal: source never finalised, 1 task pending
"""
import asyncio

from graphql import build_schema, parse
from graphql.execution import ExecutionHooks, experimental_execute_incrementally
from graphql.pyutils import AbortController

schema = build_schema("type Query { items: [Int] }")


async def main(with_signal):
    log = []
    never = asyncio.get_running_loop().create_future()

    async def source():
        try:
            yield 0
            yield 1
            await never              # the third item is not available yet
        finally:
            log.append("source finalised")

    kw = {"abort_signal": AbortController().signal} if with_signal else {}
    r = experimental_execute_incrementally(
        schema, parse("{ items @stream(initialCount: 1) }"), {"items": lambda _i: source()},
        hooks=ExecutionHooks(async_work_finished=lambda _i: log.append("hook")), **kw)
    if asyncio.iscoroutine(r) or asyncio.isfuture(r):
        r = await r
    await anext(r.subsequent_results)          # first payload: item 1
    await r.subsequent_results.aclose()        # the consumer stops
    for _ in range(50):
        await asyncio.sleep(0)
    left = [t for t in asyncio.all_tasks() if t is not asyncio.current_task()]
    ok = log == ["source finalised", "hook"] and not left
    print(f"abort_signal passed={with_signal}: log={log} pending_tasks={len(left)}  ->", "OK" if ok else "VIOLATION")
    for t in left:
        t.cancel()
    await asyncio.gather(*left, return_exceptions=True)
    return ok


if __name__ == "__main__":
    res = [asyncio.run(main(s)) for s in (False, True)]
    raise SystemExit(0 if all(res) else 1)
