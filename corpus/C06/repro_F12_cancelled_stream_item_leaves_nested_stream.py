"""F12: early execution; a stream item has started a nested @stream while another field of it is still pending; the
consumer stops: the item future is cancelled, but the sub-executor abort only ran on `except Exception`, so the
nested stream is never aborted (source unclosed, producer pending, hook fires anyway)."""
import asyncio, sys, warnings
if len(sys.argv) > 1: sys.path.insert(0, sys.argv[1])
from graphql import build_schema, parse
from graphql.execution import ExecutionHooks, experimental_execute_incrementally
schema = build_schema("""
directive @defer(if: Boolean! = true, label: String) on FRAGMENT_SPREAD | INLINE_FRAGMENT
directive @stream(if: Boolean! = true, label: String, initialCount: Int! = 0) on FIELD
type Kid { id: Int }
type Item { id: Int  slow: String  nn: String!  kids: [Kid]  sub: Item }
type Query { items: [Item]  hero: Item  a: String }
""")
def mksrc(log, never, name="src"):
    class Source:
        def __aiter__(self): return self
        async def __anext__(self):
            log.append(f"{name} started"); await never.wait()
        async def aclose(self): log.append(f"{name} closed")
    return Source
async def finish(log, me, tag):
    for _ in range(60): await asyncio.sleep(0)
    left = [x.get_coro().__qualname__ for x in asyncio.all_tasks() if x is not me and not x.done()]
    started = [x for x in log if x.endswith("started")]
    ok = not left and log.count("HOOK") == 1 and all(log.count(x.replace("started", "closed")) == 1 for x in set(started))
    print(f"{tag}: log={log} pending={left} ->", "OK" if ok else "VIOLATION")
    for x in asyncio.all_tasks():
        if x is not me: x.cancel()
    return ok
async def t3():
    log = []; never = asyncio.Event(); loop = asyncio.get_running_loop(); me = asyncio.current_task()
    slow = loop.create_future(); fa = loop.create_future()
    res = experimental_execute_incrementally(schema, parse("{ ... @defer { a } items @stream(initialCount: 0) { id slow kids @stream(initialCount: 0) { id } } }"),
        {"a": lambda _i: fa, "items": [{"id": 0, "slow": lambda _i: slow, "kids": lambda _i: mksrc(log, never, "kids")()}]},
        enable_early_execution=True, hooks=ExecutionHooks(async_work_finished=lambda _i: log.append("HOOK")))
    if hasattr(res, "__await__"): res = await res
    it = res.subsequent_results; t = asyncio.ensure_future(anext(it))
    for _ in range(20): await asyncio.sleep(0)
    fa.set_result("a"); await t
    await it.aclose()
    return await finish(log, me, "(3) stop while a stream item that started a nested stream is pending")
raise SystemExit(0 if asyncio.run(t3()) else 1)
