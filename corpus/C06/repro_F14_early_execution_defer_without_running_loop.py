import asyncio, sys, warnings
if len(sys.argv) > 1: sys.path.insert(0, sys.argv[1])
from graphql import build_schema, parse
from graphql.execution import experimental_execute_incrementally, ExecutionResult
schema = build_schema("""
directive @defer(if: Boolean! = true, label: String) on FRAGMENT_SPREAD | INLINE_FRAGMENT
type Item { id: Int  slow: String  sub: Item }
type Query { hero: Item }
""")
ok = True
for early in (False, True):
    res = experimental_execute_incrementally(schema, parse("{ hero { id ... @defer { slow } } }"),
        {"hero": {"id": 1, "slow": "s"}}, enable_early_execution=early)
    if isinstance(res, ExecutionResult):
        print(f"early={early}: ExecutionResult errors={res.errors}"); ok = False; continue
    async def drain():
        out = [res.initial_result.formatted]
        async for p in res.subsequent_results: out.append(p.formatted)
        return out
    try:
        out = asyncio.run(drain()); print(f"early={early}:", out)
        ok = ok and out[-1].get("hasNext") is False and any("incremental" in p for p in out)
    except BaseException as e:
        print(f"early={early}: {type(e).__name__}: {e}"); ok = False
print("OK" if ok else "VIOLATION")
raise SystemExit(0 if ok else 1)
