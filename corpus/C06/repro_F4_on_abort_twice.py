"""C06 finding F4 - key: stream-source-closed-twice:abort-races-producer-failure

The abort signal fires while the stream producer waits for the next source item.  abort() of the
StreamItemQueue cancels the producer and schedules _cleanup(); with_abort_signal swallows that cancellation
(`with suppress(BaseException): await task`) and raises the abort reason instead, so StreamItemQueue._run
takes its failure branch and calls on_abort (source.aclose #1); then _cleanup calls on_abort again (#2).

Run: PYTHONPATH=/repo/src /venv/bin/python repro_F4_on_abort_twice.py
expected: source.aclose() called exactly once      observed: twice
"""
import asyncio

from graphql import build_schema, parse
from graphql.execution import experimental_execute_incrementally
from graphql.pyutils import AbortController

schema = build_schema("type Query { items: [Int] }")


async def main():
    calls = []
    never = asyncio.get_running_loop().create_future()

    class Source:
        i = 0

        def __aiter__(self):
            return self

        async def __anext__(self):
            self.i += 1
            if self.i > 2:
                await never
            return self.i

        async def aclose(self):
            calls.append("aclose")
            await asyncio.sleep(0)

    ctrl = AbortController()
    r = experimental_execute_incrementally(
        schema, parse("{ items @stream(initialCount: 1) }"), {"items": lambda _i: Source()},
        abort_signal=ctrl.signal)
    if asyncio.iscoroutine(r) or asyncio.isfuture(r):
        r = await r
    await anext(r.subsequent_results)
    nxt = asyncio.ensure_future(anext(r.subsequent_results))   # the consumer waits for the next payload
    for _ in range(10):
        await asyncio.sleep(0)
    ctrl.abort(RuntimeError("stop"))
    try:
        await nxt
    except RuntimeError as e:
        print("consumer released with:", e)
    for _ in range(50):
        await asyncio.sleep(0)
    left = [t for t in asyncio.all_tasks() if t is not asyncio.current_task()]
    for t in left:
        t.cancel()
    await asyncio.gather(*left, return_exceptions=True)
    ok = calls == ["aclose"]
    print("source.aclose() calls:", calls, "->", "OK" if ok else "VIOLATION")
    return ok


if __name__ == "__main__":
    raise SystemExit(0 if asyncio.run(main()) else 1)
