"""F9 (triage item b): the result of a deferred execution group that completed while the consumer was holding a
payload is still waiting in the work queue's channel when the consumer stops (aclose or abort). cancel() does not
look at it, so the streams / early started computations carried by that result are never aborted: the started
source is never closed, its producer task stays pending, the hook fires anyway."""
import asyncio, sys
if len(sys.argv) > 1: sys.path.insert(0, sys.argv[1])
from graphql import build_schema, parse
from graphql.execution import ExecutionHooks, experimental_execute_incrementally
schema = build_schema("""
directive @defer(if: Boolean! = true, label: String) on FRAGMENT_SPREAD | INLINE_FRAGMENT
directive @stream(if: Boolean! = true, label: String, initialCount: Int! = 0) on FIELD
type Item { id: Int }
type Query { a: String  b: String  items: [Item] }
""")
QUERY = '{ ... @defer(label: "A") { a } ... @defer(label: "B") { b items @stream(initialCount: 0) { id } } }'
async def main(early):
    log = []; never = asyncio.Event(); loop = asyncio.get_running_loop()
    fa, fb = loop.create_future(), loop.create_future()
    class Source:
        def __aiter__(self): return self
        async def __anext__(self):
            log.append("source started"); await never.wait()
        async def aclose(self): log.append("source closed")
    me = asyncio.current_task()
    res = experimental_execute_incrementally(schema, parse(QUERY),
        {"a": lambda _i: fa, "b": lambda _i: fb, "items": lambda _i: Source()}, enable_early_execution=early,
        hooks=ExecutionHooks(async_work_finished=lambda _i: log.append("HOOK")))
    if hasattr(res, "__await__"): res = await res
    it = res.subsequent_results
    t = asyncio.ensure_future(anext(it))
    await asyncio.sleep(0.01); fa.set_result("a")
    print((await t).formatted)                    # payload for A; the consumer now holds it
    fb.set_result("b")                            # B's execution group completes meanwhile
    for _ in range(20): await asyncio.sleep(0)
    await it.aclose()                             # the consumer stops
    for _ in range(50): await asyncio.sleep(0)
    left = [x.get_coro().__qualname__ for x in asyncio.all_tasks() if x is not me and not x.done()]
    print(f"early={early} log:", log, "pending tasks:", left)
    started = "source started" in log
    ok = not left and log.count("HOOK") == 1 and (not started or log.count("source closed") == 1)
    print("OK" if ok else "VIOLATION")
    for x in asyncio.all_tasks():
        if x is not me: x.cancel()
    return ok
r = [asyncio.run(main(e)) for e in (False, True)]
raise SystemExit(0 if all(r) else 1)
