"""F13: early execution; a deferred fragment fails after a nested fragment under one of its fields has completed and
started a stream: IncrementalExecutor.abort() does not look into the results of execution groups that have completed
already, so that stream is never aborted."""
import asyncio, sys, warnings
if len(sys.argv) > 1: sys.path.insert(0, sys.argv[1])
from graphql import build_schema, parse
from graphql.execution import ExecutionHooks, experimental_execute_incrementally
schema = build_schema("""
directive @defer(if: Boolean! = true, label: String) on FRAGMENT_SPREAD | INLINE_FRAGMENT
directive @stream(if: Boolean! = true, label: String, initialCount: Int! = 0) on FIELD
type Kid { id: Int }
type Item { id: Int  slow: String  nn: String!  kids: [Kid]  sub: Item }
type Query { items: [Item]  hero: Item  a: String }
""")
def mksrc(log, never, name="src"):
    class Source:
        def __aiter__(self): return self
        async def __anext__(self):
            log.append(f"{name} started"); await never.wait()
        async def aclose(self): log.append(f"{name} closed")
    return Source
async def finish(log, me, tag):
    for _ in range(60): await asyncio.sleep(0)
    left = [x.get_coro().__qualname__ for x in asyncio.all_tasks() if x is not me and not x.done()]
    started = [x for x in log if x.endswith("started")]
    ok = not left and log.count("HOOK") == 1 and all(log.count(x.replace("started", "closed")) == 1 for x in set(started))
    print(f"{tag}: log={log} pending={left} ->", "OK" if ok else "VIOLATION")
    for x in asyncio.all_tasks():
        if x is not me: x.cancel()
    return ok
async def t4():
    log = []; never = asyncio.Event(); loop = asyncio.get_running_loop(); me = asyncio.current_task()
    boom = loop.create_future()
    res = experimental_execute_incrementally(schema, parse("{ hero { ... @defer(label: \"O\") { nn sub { ... @defer(label: \"I\") { kids @stream(initialCount: 0) { id } } } } } }"),
        {"hero": {"nn": lambda _i: boom, "sub": {"kids": lambda _i: mksrc(log, never, "kids")()}}},
        enable_early_execution=True, hooks=ExecutionHooks(async_work_finished=lambda _i: log.append("HOOK")))
    if hasattr(res, "__await__"): res = await res
    async def consume():
        async for p in res.subsequent_results: pass
    t = asyncio.ensure_future(consume())
    for _ in range(30): await asyncio.sleep(0)
    boom.set_exception(RuntimeError("boom")); await asyncio.wait_for(t, 2)
    return await finish(log, me, "(4) deferred fragment fails after a nested defer completed and started a stream")
raise SystemExit(0 if asyncio.run(t4()) else 1)
