"""C06 finding F5 - key: cancelled-list-completion:class-source-not-closed

Executor.complete_async_iterator_value closes the source (`early_return`) only in `except Exception`.
When the completion of the list is CANCELLED while it waits for the next source item (a failing non-null
sibling cancels it through gather_with_cancel; Computation.abort cancels a deferred fragment), the
CancelledError bypasses that handler and a class-based source never receives aclose().
(An async generator source is finalised by the CancelledError thrown into it, so only sources that
implement __anext__/aclose themselves are affected.)

Run: PYTHONPATH=/repo/src /venv/bin/python repro_F5_cancelled_list_source_not_closed.py
expected: source.aclose() called once     observed: never
"""
import asyncio

from graphql import build_schema, parse
from graphql.execution import execute

schema = build_schema("type Query { nn: String!  gen: [Int] }")


async def main():
    calls = []
    loop = asyncio.get_running_loop()
    never, fail = loop.create_future(), loop.create_future()

    class Source:
        i = 0

        def __aiter__(self):
            return self

        async def __anext__(self):
            self.i += 1
            if self.i > 1:
                await never          # the second item is not available yet
            return self.i

        async def aclose(self):
            calls.append("aclose")

    task = asyncio.ensure_future(execute(schema, parse("{ gen nn }"),
                                         {"gen": lambda _i: Source(), "nn": lambda _i: fail}))
    for _ in range(10):
        await asyncio.sleep(0)
    fail.set_exception(RuntimeError("boom"))      # the non-null sibling fails: the whole result is nulled
    result = await task
    for _ in range(20):
        await asyncio.sleep(0)
    print("result:", result.data, [e.message for e in result.errors])
    ok = calls == ["aclose"]
    print("source.aclose() calls:", calls, "->", "OK" if ok else "VIOLATION")
    return ok


if __name__ == "__main__":
    raise SystemExit(0 if asyncio.run(main()) else 1)
