"""F11: early execution, @stream over a list with NON-NULL items.  Item 1 has completed (its result carries a nested
@stream that has started its source); item 0 then fails through a non-null field, so the outer stream fails.  The
already completed but undelivered item 1 is dropped with the stream item queue - the nested stream it carries is
never aborted: its source is never closed and its producer task stays pending; the hook fires anyway."""
import asyncio, sys
if len(sys.argv) > 1: sys.path.insert(0, sys.argv[1])
from graphql import build_schema, parse
from graphql.execution import ExecutionHooks, experimental_execute_incrementally
schema = build_schema("""
directive @stream(if: Boolean! = true, label: String, initialCount: Int! = 0) on FIELD
type Kid { id: Int }
type Item { id: Int  nn: String!  kids: [Kid] }
type Query { items: [Item!] }
""")
async def main():
    log = []; never = asyncio.Event(); loop = asyncio.get_running_loop(); boom = loop.create_future()
    class Source:
        def __aiter__(self): return self
        async def __anext__(self):
            log.append("nested source started"); await never.wait()
        async def aclose(self): log.append("nested source closed")
    me = asyncio.current_task()
    items = [{"id": 0, "nn": lambda _i: boom, "kids": []}, {"id": 1, "nn": "k", "kids": lambda _i: Source()}]
    res = experimental_execute_incrementally(schema, parse("{ items @stream(initialCount: 0) { id nn kids @stream(initialCount: 0) { id } } }"),
        {"items": items}, enable_early_execution=True, hooks=ExecutionHooks(async_work_finished=lambda _i: log.append("HOOK")))
    if hasattr(res, "__await__"): res = await res
    async def consume():
        async for p in res.subsequent_results: print(p.formatted)
    t = asyncio.ensure_future(consume())
    for _ in range(30): await asyncio.sleep(0)
    boom.set_exception(RuntimeError("boom"))
    await asyncio.wait_for(t, 2)
    for _ in range(50): await asyncio.sleep(0)
    left = [x.get_coro().__qualname__ for x in asyncio.all_tasks() if x is not me and not x.done()]
    print("log:", log, "pending tasks:", left)
    ok = log == ["nested source started", "nested source closed", "HOOK"] and not left
    print("OK" if ok else "VIOLATION: nested stream of a completed but undelivered item never aborted")
    for x in asyncio.all_tasks():
        if x is not me: x.cancel()
    return ok
raise SystemExit(0 if asyncio.run(main()) else 1)
