"""C06 finding F6 - key: hook-fired-before-cancelled-deferred-work-settled

The async_work_finished hook fires while a cancelled deferred task has not settled yet: the resolver's
`finally` runs AFTER the hook announced that all asynchronous work has finished.

(a) default (lazy) execution: the consumer closes the payload stream while a deferred fragment is running.
    WorkQueue.cancel() aborts the computation (future.cancel()) but nobody waits for the cancelled future:
    futures started by WorkQueue._start_task are not tracked, only abort callbacks are awaited.
(b) early execution: a non-null ROOT field fails, the data is nulled, get_incremental_work aborts the early
    started task and the plain response is built, which runs the hook synchronously.

Run: PYTHONPATH=/repo/src /venv/bin/python repro_F6_hook_before_cancelled_work_settled.py
expected: '... resolver finalised' before 'HOOK'      observed: 'HOOK' first
"""
import asyncio

from graphql import build_schema, parse
from graphql.execution import ExecutionHooks, experimental_execute_incrementally

schema = build_schema("type Item { id: ID name: String slow: String }  type Query { nn: String!  hero: Item }")


def resolver(log, never):
    async def slow(_info):
        log.append("resolver started")
        try:
            await never
        finally:
            log.append("resolver finalised")
    return slow


async def lazy_aclose():
    log = []
    never = asyncio.get_running_loop().create_future()
    r = experimental_execute_incrementally(
        schema, parse('{ hero { id ... @defer(label: "A") { name } ... @defer(label: "B") { slow } } }'),
        {"hero": {"id": 1, "name": "n", "slow": resolver(log, never)}},
        hooks=ExecutionHooks(async_work_finished=lambda _i: log.append("HOOK")))
    if asyncio.iscoroutine(r) or asyncio.isfuture(r):
        r = await r
    await anext(r.subsequent_results)            # fragment A is delivered
    await r.subsequent_results.aclose()          # the consumer stops while B's resolver is in flight
    for _ in range(20):
        await asyncio.sleep(0)
    ok = log == ["resolver started", "resolver finalised", "HOOK"]
    print("(a) lazy, aclose while a deferred fragment runs: log:", log, "->", "OK" if ok else "VIOLATION")
    return ok


async def early_nulled_root():
    log = []
    loop = asyncio.get_running_loop()
    fail, never = loop.create_future(), loop.create_future()
    r = experimental_execute_incrementally(
        schema, parse("{ nn hero { id ... @defer { slow } } }"),
        {"nn": lambda _i: fail, "hero": {"id": 1, "slow": resolver(log, never)}},
        enable_early_execution=True,
        hooks=ExecutionHooks(async_work_finished=lambda _i: log.append("HOOK")))
    task = asyncio.ensure_future(r)
    for _ in range(10):
        await asyncio.sleep(0)
    fail.set_exception(RuntimeError("boom"))     # the non-null root field fails: data is null
    res = await task
    for _ in range(20):
        await asyncio.sleep(0)
    ok = log == ["resolver started", "resolver finalised", "HOOK"]
    print("(b) early execution, root nulled: data:", res.data, "log:", log, "->", "OK" if ok else "VIOLATION")
    return ok


if __name__ == "__main__":
    res = [asyncio.run(lazy_aclose()), asyncio.run(early_nulled_root())]
    raise SystemExit(0 if all(res) else 1)
