import random, json, sys, glob
sys.setrecursionlimit(10000)
exec(open('/tmp/t5.py').read().split("# search small failing")[0])
from graphql.language import visit, Visitor, print_ast, REMOVE
from graphql.language import ast as A
def variants(doc):
    """Yield docs with one selection / one directive removed."""
    nodes=[]
    class C(Visitor):
        def enter_selection_set(self, node, *a):
            for i in range(len(node.selections)):
                if len(node.selections)>1: nodes.append(("sel", node, i))
        def enter_directive(self, node, *a):
            nodes.append(("dir", node, 0))
    visit(doc, C())
    for kind,node,i in nodes:
        class R(Visitor):
            def enter_selection_set(self, n, *a):
                if kind=="sel" and n is node:
                    return A.SelectionSetNode(selections=tuple(s for j,s in enumerate(n.selections) if j!=i), loc=n.loc)
            def enter_directive(self, n, *a):
                if kind=="dir" and n is node: return REMOVE
        yield visit(doc, R())
for f in sorted(glob.glob('/verif/replays/C04-[0-9].json'))[:1]:
    d=json.load(open(f))
    q=d['query']; beh=dict(eval(d['behaviours'])); pi=eval(d['order']); early=d['early_execution']
    bad,coll,ref=run_one(q,beh,pi,early)
    print("initial bad:", bad if not isinstance(bad,bool) else bad, len(q))
    cur=parse(q)
    improved=True
    while improved:
        improved=False
        for v in variants(cur):
            try:
                t=print_ast(v); vd=parse(t)
            except Exception: continue
            if validate(schema, vd): continue
            try:
                b,_,_=run_one(t,beh,pi,early)
            except Exception as e:
                continue
            if b:
                cur=vd; improved=True; break
    t=print_ast(cur)
    print(t)
    bad,coll,ref=run_one(t,beh,pi,early)
    print("bad:",bad)
    used={p:v for p,v in beh.items()}
    print("beh:", {p:v for p,v in beh.items()})
    print("order:",pi,"early",early)
    print(json.dumps(coll["initial"]))
    for p in coll["payloads"]: print(json.dumps(p))
    print("REF", json.dumps(ref.formatted))
# minimise behaviours
beh2=dict(beh)
for p in list(beh2):
    trial={k:v for k,v in beh2.items() if k!=p}
    pi2=tuple(x for x in pi if x in trial)
    try:
        b,_,_=run_one(t,trial,pi2,early)
    except Exception: continue
    if b: beh2=trial
pi2=tuple(x for x in pi if x in beh2)
# shrink again with fewer behaviours
cur=parse(t); improved=True
while improved:
    improved=False
    for v in variants(cur):
        try:
            tt=print_ast(v); vd=parse(tt)
        except Exception: continue
        if validate(schema, vd): continue
        try: b,_,_=run_one(tt,beh2,pi2,early)
        except Exception: continue
        if b: cur=vd; improved=True; break
t2=print_ast(cur)
print("=========== MIN"); print(t2); print(beh2, pi2, early)
bad,coll,ref=run_one(t2,beh2,pi2,early)
print(bad); print(json.dumps(coll["initial"]))
for p in coll["payloads"]: print(json.dumps(p))
