import random, json, sys
from harness import c04
from harness.c04 import *
from harness.loopctl import Controller
from harness.c03 import World
from graphql import build_schema, execute_sync, parse, validate
from graphql.execution import experimental_execute_incrementally, ExecutionResult
schema = build_schema(c04.SDL)
def run_one(q, beh, pi, early):
    doc=parse(q); ref_doc=strip_directives(doc)
    ws=World(random.Random(0),[None],{p:("sync",wh) for p,(m_,wh) in beh.items()},[])
    ref=execute_sync(schema, ref_doc, ws.root())
    ctl=Controller(); wa=World(random.Random(0),[ctl],beh,[]); collected={}
    def make(c):
        async def go():
            res=experimental_execute_incrementally(schema, doc, wa.root(), enable_early_execution=early)
            if hasattr(res,"__await__"): res=await res
            if isinstance(res, ExecutionResult):
                collected["single"]=res.formatted; return
            collected["initial"]=res.initial_result.formatted; collected["payloads"]=[]
            async for p in res.subsequent_results: collected["payloads"].append(p.formatted)
        return go()
    kind,res=ctl.run(make, list(pi))
    if "single" in collected: return None, collected, ref
    merged,problems,left=py_merge(collected["initial"], collected["payloads"])
    bad = problems or left or (not ref.errors and merged != ref.formatted["data"])
    return bad, collected, ref
# search small failing
class Small(Cover):
    def mk_obj(self, depth):
        node={}
        for f in self.r.sample(self.SCALARS, self.r.randint(1,2)): node[f]=("scalar",None)
        if depth>0:
            for f in self.r.sample(["bestFriend","friends"], self.r.randint(0,1)):
                node[f]=("list" if "riends" in f else "obj", self.mk_obj(depth-1))
        return node
    def mk_root(self):
        node={}
        for f in self.r.sample(["me","list"], self.r.randint(1,1)):
            node[f]=("list" if "list" in f else "obj", self.mk_obj(2))
        return node
best=None
for seed in range(4000):
    r=random.Random(seed)
    q=Small(r).query()
    if len(q)>260: continue
    try:
        d=parse(q)
    except Exception: continue
    if validate(schema,d): continue
    for early in (False,True):
        bad,coll,ref=run_one(q,{},(),early)
        if bad:
            if best is None or len(q)<len(best[0]):
                best=(q,early,bad,coll,ref)
if best:
    q,early,bad,coll,ref=best
    print(q); print(early, bad if isinstance(bad,list) else bad)
    print(json.dumps(coll["initial"])); 
    for p in coll["payloads"]: print(json.dumps(p))
    print(json.dumps(ref.formatted))
