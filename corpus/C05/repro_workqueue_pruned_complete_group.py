"""WorkQueue level: group D (child of B) holds one task `pet`, shared with root group A and already completed.
When B finishes, D is pruned as "empty" and its child E is promoted and delivered, although the value of `pet`
(which the work of E was produced by, i.e. the object E writes into) is only delivered later with A."""
import asyncio
from graphql.execution.incremental import Computation
from graphql.execution.incremental.work_queue import Work, WorkQueue, WorkResult, WorkTask
class G:
    def __init__(s, name, parent=None): s.name, s.parent = name, parent
    def __repr__(s): return s.name
async def main():
    loop = asyncio.get_running_loop()
    A = G("A"); B = G("B"); D = G("D", B); E = G("E", D)
    slow = loop.create_future()
    t_name = WorkTask([E], Computation(lambda: WorkResult("name")))
    t_pet = WorkTask([A, D], Computation(lambda: WorkResult("pet", Work([E], [t_name]))))
    t_slow = WorkTask([A], Computation(lambda: slow))
    t_x = WorkTask([B], Computation(lambda: WorkResult("x")))
    wq = WorkQueue(Work([A, B, D], [t_pet, t_slow, t_x]))
    out = []
    async def collect():
        async for b in wq.events(): out.extend(b)
    t = asyncio.ensure_future(collect())
    await asyncio.sleep(0.01); slow.set_result(WorkResult("slow")); await t
    delivered = []
    for e in out:
        print(e)
        if type(e).__name__ == "GroupValuesEvent": delivered += list(e.values)
    ok = delivered.index("pet") < delivered.index("name")
    print("OK" if ok else "VIOLATION: value 'name' (work produced by task 'pet') delivered before value 'pet'")
    return ok
if __name__ == "__main__":
    raise SystemExit(0 if asyncio.run(main()) else 1)
