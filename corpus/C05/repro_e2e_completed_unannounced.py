import asyncio, json
from graphql import build_schema, parse
from graphql.execution import experimental_execute_incrementally

schema = build_schema("""
type Query { x: Int!  y: Int  z: Int hero: Hero }
type Hero { name: String! id: Int friends: [Hero] }
directive @defer(if: Boolean = true, label: String) on FRAGMENT_SPREAD | INLINE_FRAGMENT
directive @stream(if: Boolean = true, label: String, initialCount: Int = 0) on FIELD
""")

async def main():
    loop = asyncio.get_running_loop()
    futs = {}
    def mk(name):
        def r(src, info):
            f = loop.create_future(); futs.setdefault(name, []).append(f); return f
        return r
    class Root:
        pass
    root = {"x": None, "y": None}
    doc = parse("""
    { z
      ... @defer(label:"A") { x }
      ... @defer(label:"C") { y ... @defer(label:"B") { x } }
    }""")
    async def fx(src, info):
        await asyncio.sleep(0.01)
        raise RuntimeError("boom")
    async def fy(src, info):
        await asyncio.sleep(0.05)
        return 1
    schema.query_type.fields["x"].resolve = fx
    schema.query_type.fields["y"].resolve = fy
    schema.query_type.fields["z"].resolve = lambda s, i: 3
    res = experimental_execute_incrementally(schema, doc, None)
    if asyncio.iscoroutine(res) or asyncio.isfuture(res):
        res = await res
    print(json.dumps(res.initial_result.formatted))
    announced = {p["id"] for p in res.initial_result.formatted.get("pending", [])}
    bad = []
    async for p in res.subsequent_results:
        f = p.formatted
        print(json.dumps(f))
        announced |= {e["id"] for e in f.get("pending", [])}
        bad += [e["id"] for e in f.get("completed", []) if e["id"] not in announced]
    print("VIOLATION: completed ids never announced: %s" % bad if bad else "OK")
    return bool(bad)
raise SystemExit(1 if asyncio.run(main()) else 0)
