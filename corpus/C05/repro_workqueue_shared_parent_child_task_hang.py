"""WorkQueue: a task shared by a parent group and its child group that completes LAST for the parent
promotes the child with a stale pending counter -> child announced, never completed, queue never terminates."""
import asyncio
from graphql.execution.incremental import Computation
from graphql.execution.incremental.work_queue import Work, WorkQueue, WorkResult, WorkTask
class G:
    def __init__(s, name, parent=None): s.name, s.parent = name, parent
    def __repr__(s): return s.name
async def main():
    loop = asyncio.get_running_loop()
    parent = G("parent"); child = G("child", parent)
    f = loop.create_future()
    shared = WorkTask([parent, child], Computation(lambda: f))
    parent_only = WorkTask([parent], Computation(lambda: WorkResult("parent-only")))
    wq = WorkQueue(Work([parent, child], [shared, parent_only]))
    out = []
    async def collect():
        async for b in wq.events(): out.extend(b)
    t = asyncio.ensure_future(collect())
    await asyncio.sleep(0)
    f.set_result(WorkResult("shared"))
    hang = False
    try:
        await asyncio.wait_for(t, 0.5); print("terminated: OK")
    except asyncio.TimeoutError:
        print("VIOLATION (HANG): no termination event"); hang = True
    for e in out: print(e)
    return hang
raise SystemExit(1 if asyncio.run(main()) else 0)
