import asyncio
from graphql.execution.incremental import Computation
from graphql.execution.incremental.work_queue import Work, WorkQueue, WorkResult, WorkTask
class G:
    def __init__(s, name, parent=None): s.name, s.parent = name, parent
    def __repr__(s): return s.name
async def main():
    loop = asyncio.get_running_loop()
    A = G("A"); C = G("C"); B = G("B", C)
    fx, fy = loop.create_future(), loop.create_future()
    tx = WorkTask([A, B], Computation(lambda: fx))
    ty = WorkTask([C], Computation(lambda: fy))
    wq = WorkQueue(Work([A, C, B], [tx, ty]))
    print("initial", wq.initial_groups)
    out = []
    async def collect():
        async for b in wq.events(): out.append(b)
    t = asyncio.ensure_future(collect())
    await asyncio.sleep(0)
    fx.set_exception(RuntimeError("boom"))
    for _ in range(5): await asyncio.sleep(0)
    from graphql.execution.incremental.incremental_executor import ExecutionGroupValue
    fy.set_result(WorkResult(ExecutionGroupValue([C], [], {"y": 1}, None)))
    await t
    for b in out: print(b)
    # since commit 3bf99e2 the work queue still reports the failure of the never announced group B
    # (pinned by an upstream test); the publisher drops it.  Check the publisher.
    from graphql.execution.incremental.incremental_publisher import IncrementalPublisher
    class P:
        def __init__(s, l): s.l = l
        def as_list(s): return s.l
    for g in (A, B, C): g.path, g.label = P([]), g.name
    pub = IncrementalPublisher()
    ids = {p.id for p in pub._to_pending_results(wq.initial_groups, [])}
    bad = []
    for b in out:
        f = pub._handle_batch(b).formatted
        ids |= {e["id"] for e in f.get("pending", [])}
        bad += [e["id"] for e in f.get("completed", []) if e["id"] not in ids]
    print("VIOLATION: completed ids never announced: %s" % bad if bad else "OK")
    return bool(bad)
raise SystemExit(1 if asyncio.run(main()) else 0)
