import asyncio
from graphql.execution.incremental import Computation
from graphql.execution.incremental.work_queue import Work, WorkQueue, WorkResult, WorkTask
class G:
    def __init__(s, name, parent=None): s.name, s.parent = name, parent
    def __repr__(s): return s.name
async def main():
    loop = asyncio.get_running_loop()
    A = G("A"); C = G("C"); B = G("B", C)
    fx, fy = loop.create_future(), loop.create_future()
    tx = WorkTask([A, B], Computation(lambda: fx))
    ty = WorkTask([C], Computation(lambda: fy))
    wq = WorkQueue(Work([A, C, B], [tx, ty]))
    print("initial", wq.initial_groups)
    out = []
    async def collect():
        async for b in wq.events(): out.append(b)
    t = asyncio.ensure_future(collect())
    await asyncio.sleep(0)
    fx.set_exception(RuntimeError("boom"))
    for _ in range(5): await asyncio.sleep(0)
    fy.set_result(WorkResult("y"))
    await t
    for b in out: print(b)
asyncio.run(main())
