import asyncio, json
from graphql import build_schema, parse
from graphql.execution import experimental_execute_incrementally

schema = build_schema("""
type Query { list: [Item] }
type Item { slow: Int }
directive @defer(if: Boolean = true, label: String) on FRAGMENT_SPREAD | INLINE_FRAGMENT
directive @stream(if: Boolean = true, label: String, initialCount: Int = 0) on FIELD
""")
async def main():
    loop = asyncio.get_running_loop()
    slow = loop.create_future()
    async def gen(_info):
        yield {"slow": slow}
        await asyncio.sleep(0.01)
        raise RuntimeError("source broke")
    res = experimental_execute_incrementally(schema, parse("{ list @stream(initialCount: 0) { slow } }"),
        {"list": gen}, enable_early_execution=True)
    if hasattr(res, "__await__"): res = await res
    print(res) if not hasattr(res,"initial_result") else print(json.dumps(res.initial_result.formatted))
    async def consume():
        async for p in res.subsequent_results:
            print(json.dumps(p.formatted))
    t = asyncio.ensure_future(consume())
    await asyncio.sleep(0.1)
    print("slow cancelled?", slow.cancelled(), "consumer done?", t.done())
    if not slow.done(): slow.set_result(1)
    try:
        await asyncio.wait_for(t, 1.0)
        print("finished: OK")
        return False
    except asyncio.TimeoutError:
        print("VIOLATION (HANG): payload stream never finishes")
        return True
raise SystemExit(1 if asyncio.run(main()) else 0)
