"""A nested fragment's data is delivered before the object it targets exists.

D (child of B) has a single execution group `pet`, shared with the sibling fragment A.  That group has
completed, so when B finishes, D counts as "empty" (pending == 0) and is pruned; its child E is promoted
and delivered - but the value of the shared group (`pet: {}`) is only delivered when A finishes (A waits
for `slow`).  Expected: every incremental entry targets an existing object in the data assembled so far.
"""
import asyncio, json
from graphql import build_schema, parse
from graphql.execution import experimental_execute_incrementally

schema = build_schema("""
directive @defer(if: Boolean = true, label: String) on FRAGMENT_SPREAD | INLINE_FRAGMENT
type Query { hero: Hero }
type Hero { pet: Hero  id: Int  name: String  x: Int  slow: Int }
""")
QUERY = """{
  ... @defer(label: "A") { hero { pet { id slow } } }
  ... @defer(label: "B") { hero { x ... @defer(label: "D") { pet { ... @defer(label: "E") { name } } } } }
}"""

def lookup(data, path):
    for k in path:
        try: data = data[k]
        except (KeyError, IndexError, TypeError): return None
    return data

async def main(early):
    slow = asyncio.get_running_loop().create_future()
    root = {"hero": {"x": 1, "pet": {"id": 2, "name": "n", "slow": slow}}}
    def resolver(src, info, **_): return src.get(info.field_name)
    res = experimental_execute_incrementally(schema, parse(QUERY), root, field_resolver=resolver, enable_early_execution=early)
    if hasattr(res, "__await__"): res = await res
    data = res.initial_result.formatted["data"]; paths = {}
    print(json.dumps(res.initial_result.formatted))
    for p in res.initial_result.formatted["pending"]: paths[p["id"]] = p["path"]
    bad = []
    async def consume():
        async for p in res.subsequent_results:
            f = p.formatted; print(json.dumps(f))
            for e in f.get("pending", []): paths[e["id"]] = e["path"]
            for e in f.get("incremental", []):
                target = paths[e["id"]] + e.get("subPath", [])
                obj = lookup(data, target)
                if not isinstance(obj, dict): bad.append(f"id {e['id']}: target {target} does not exist yet")
                else: obj.update(e["data"])
    t = asyncio.ensure_future(consume())
    await asyncio.sleep(0.05); slow.set_result(3); await t
    print("early_execution=%s ->" % early, "VIOLATION: " + "; ".join(bad) if bad else "OK")
    return bool(bad)

if __name__ == "__main__":
    r = [asyncio.run(main(e)) for e in (False, True)]
    raise SystemExit(1 if any(r) else 0)
