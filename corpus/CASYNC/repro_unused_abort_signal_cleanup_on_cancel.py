"""with an abort signal that never fires, the next mutation field starts while a cancelled resolver of the
previous field is still cleaning up.  Usage: abort_repro.py [src root]"""
import asyncio, sys
sys.path.insert(0, sys.argv[1] if len(sys.argv) > 1 else "/repo/src")
from graphql import build_schema, execute, parse
from graphql.pyutils import AbortController

SDL = "type Box { bad: String! slow: String } type Query { ok: String } type Mutation { first: Box second: String }"

async def run(with_signal, ticks):
    log = []
    schema = build_schema(SDL)
    async def bad(_o, _i):
        await asyncio.sleep(0)
        raise RuntimeError("bad")
    async def slow(_o, _i):
        log.append("slow:start")
        try:
            await asyncio.Event().wait()
        except asyncio.CancelledError:
            for _ in range(ticks):          # asynchronous cleanup, e.g. a rollback
                await asyncio.sleep(0)
            raise
        finally:
            log.append("slow:end")
    def second(_r, _i):
        log.append("second:start")
        return "second"
    schema.type_map["Box"].fields["bad"].resolve = bad
    schema.type_map["Box"].fields["slow"].resolve = slow
    schema.mutation_type.fields["first"].resolve = lambda _r, _i: {}
    schema.mutation_type.fields["second"].resolve = second
    kw = {"abort_signal": AbortController().signal} if with_signal else {}
    res = await asyncio.wait_for(execute(schema, parse("mutation { first { bad slow } second }"), **kw), 5)
    for _ in range(10):
        await asyncio.sleep(0)
    ok = "slow:end" in log and log.index("slow:end") < log.index("second:start")
    print(f"signal={with_signal} cleanup_ticks={ticks}: {'ok ' if ok else 'BAD'} {log} data={res.data}")
    return ok

async def main():
    r = [await run(s, t) for s in (False, True) for t in (0, 1, 2, 5)]
    return all(r)

sys.exit(0 if asyncio.run(main()) else 1)
